"""Rules over T-encoders shared by C03, C07, C10, C15.

The reference is the RFC 8949 head encoding, written here independently of
the implementation: initial byte = major-type offset | additional info,
argument big-endian at its width, shortest form for the width-agnostic
entry points.  Names of the public cbor_encode_* functions are API, so the
per-function expectation is keyed by name."""
from build import AnalysisBroken
import tables
import paths as P

U64 = (1 << 64) - 1

# name -> (mode, major-type offset, width in bytes | None)
SPEC = {
    "cbor_encode_uint8": ("fixed", 0x00, 1), "cbor_encode_uint16": ("fixed", 0x00, 2),
    "cbor_encode_uint32": ("fixed", 0x00, 4), "cbor_encode_uint64": ("fixed", 0x00, 8),
    "cbor_encode_uint": ("shortest", 0x00, None),
    "cbor_encode_negint8": ("fixed", 0x20, 1), "cbor_encode_negint16": ("fixed", 0x20, 2),
    "cbor_encode_negint32": ("fixed", 0x20, 4), "cbor_encode_negint64": ("fixed", 0x20, 8),
    "cbor_encode_negint": ("shortest", 0x20, None),
    "cbor_encode_bytestring_start": ("shortest", 0x40, None),
    "cbor_encode_string_start": ("shortest", 0x60, None),
    "cbor_encode_array_start": ("shortest", 0x80, None),
    "cbor_encode_map_start": ("shortest", 0xA0, None),
    "cbor_encode_tag": ("shortest", 0xC0, None),
    "cbor_encode_indef_bytestring_start": ("byte", 0x5F, None),
    "cbor_encode_indef_string_start": ("byte", 0x7F, None),
    "cbor_encode_indef_array_start": ("byte", 0x9F, None),
    "cbor_encode_indef_map_start": ("byte", 0xBF, None),
    "cbor_encode_break": ("byte", 0xFF, None),
    "cbor_encode_null": ("byte", 0xF6, None),
    "cbor_encode_undef": ("byte", 0xF7, None),
    "cbor_encode_bool": ("bool", 0xF4, None),
    "cbor_encode_ctrl": ("fixed", 0xE0, 1),
    "cbor_encode_half": ("float", 0xE0, 2),
    "cbor_encode_single": ("float", 0xE0, 4),
    "cbor_encode_double": ("float", 0xE0, 8),
}
AI = {1: 0x18, 2: 0x19, 4: 0x1A, 8: 0x1B}
NAN_BITS = {2: 0x7E00, 4: 0x7FC00000, 8: 0x7FF8000000000000}


def public_encoders(prog):
    return sorted(f.name for f in prog.lib_funcs() if f.name.startswith("cbor_encode_") and not f.internal)


def classes(mode, width, typemax):
    """reference partition of the value domain: list of (lo, hi, N, immediate?)"""
    if mode == "fixed":
        if width == 1:
            return [(0, 23, 1, True), (24, 255, 1, False)]
        return [(0, (1 << (8 * width)) - 1, width, False)]
    if mode == "shortest":
        cl = [(0, 23, 1, True), (24, 255, 1, False), (256, 65535, 2, False), (65536, (1 << 32) - 1, 4, False),
              (1 << 32, U64, 8, False)]
        return [(lo, min(hi, typemax), n, imm) for lo, hi, n, imm in cl if lo <= typemax]
    raise AnalysisBroken("no value classes for mode %s" % mode)


def first_byte(t):
    """('const', c) | ('imm', c, X) for trunc8(c + X) | None"""
    if isinstance(t, tuple) and t[0] == "c":
        return ("const", t[1] & 0xFF)
    if isinstance(t, tuple) and t[0] == "arg":
        return ("imm", 0, t)
    if isinstance(t, tuple) and t[0] == "cast" and t[1] == "trunc" and t[2] == "i8":
        x = t[3]
        y = x
        while isinstance(y, tuple) and y[0] == "cast" and y[1] in ("zext", "trunc"):
            y = y[3]
        if isinstance(y, tuple) and y[0] == "arg":
            return ("imm", 0, y)
        if isinstance(x, tuple) and x[0] == "op" and x[1] == "add":
            a, b = x[3], x[4]
            if a[0] == "c":
                c, v = a[1], b
            elif b[0] == "c":
                c, v = b[1], a
            else:
                return None
            while isinstance(v, tuple) and v[0] == "cast" and v[1] in ("zext", "trunc"):
                v = v[3]
            return ("imm", c & 0xFF, v)
    return None


FLOAT_MASKS = {4: (0x7F800000, 0x007FFFFF, 0x7FFFFFFF), 8: (0x7FF0000000000000, 0x000FFFFFFFFFFFFF, 0x7FFFFFFFFFFFFFFF)}


def nan_status(st, n):
    """Is the float parameter known to be NaN / known not to be NaN on this path?  Recognises isnan() (fcmp uno) and the
    exact bit-level tests; returns True / False / None (not tested) / 'inexact' (a bit test that is not equivalent to isnan)."""
    V = ("arg", 0)
    for (t, truth, _) in st.facts:
        if t[0] == "fcmp" and t[1] == "uno":
            return truth
        # self-comparisons: x != x holds exactly for NaN, x == x exactly for non-NaN
        if t[0] == "fcmp" and len(t) == 4 and t[2] == t[3] == V:
            if t[1] in ("une", "one") and t[1] == "une":
                return truth
            if t[1] in ("oeq", "ord"):
                return not truth
    if n not in FLOAT_MASKS:
        return None
    EXP, MANT, ABS = FLOAT_MASKS[n]
    B = ("reinterpret", "i%d" % (8 * n), V)

    def masked(t):
        if isinstance(t, tuple) and t[0] == "op" and t[1] == "and":
            x, y = t[3], t[4]
            if x == B and y[0] == "c":
                return y[1]
            if y == B and x[0] == "c":
                return x[1]
        return None
    exp_all = mant_zero = None
    inexact = False
    for (t, truth, _) in st.facts:
        if t[0] != "icmp":
            continue
        m = masked(t[2])
        if m is None:
            continue
        c = t[3][1] if t[3][0] == "c" else None
        if t[1] == "eq" and m == EXP and c == EXP:
            exp_all = truth
        elif t[1] == "eq" and m == MANT and c == 0:
            mant_zero = truth
        elif t[1] == "ugt" and m == ABS and c == EXP:
            return truth
        elif t[1] == "ule" and m == ABS and c == EXP:
            return not truth
        else:
            inexact = True
    if exp_all is False:
        return False
    if exp_all is True and mant_zero is not None:
        return not mant_zero
    if inexact or exp_all is not None or mant_zero is not None:
        return "inexact"
    return None


def typemax_of(prog, fname, vi):
    f = prog.fn(fname)
    t = f.params[vi]["type"]
    if t.startswith("i") and t[1:].isdigit():
        return (1 << int(t[1:])) - 1
    return None


def check_encoder(prog, eff, fname):
    """returns (results, npaths); results = [(rule, instance, ok, where, detail)]"""
    if fname not in SPEC:
        raise AnalysisBroken("public encoder %s has no reference entry (new API: add it to encoder_rules.SPEC)" % fname)
    mode, off, width = SPEC[fname]
    f = prog.fn(fname)
    where = "%s:%d" % (f.file, f.line)
    ps = tables.encoder_paths(prog, eff, fname)
    res = []

    def R(rule, inst, ok, detail="", w=None):
        res.append((rule, "%s %s" % (fname, inst), bool(ok), w or where, "" if ok else detail))

    for d in ps:
        if d["irregular"]:
            R("guard", "irregular buffer write", False, "buffer written through a variable index / bulk copy at %s" % d["irregular"][0].ins.loc())
    succ = [d for d in ps if d["ret"] != ("c", 0)]
    fail = [d for d in ps if d["ret"] == ("c", 0)]
    for d in ps:
        if not P.is_const(d["ret"]):
            R("guard", "return value", False, "returned length is not a constant on a path: %r" % (d["ret"],))
            return res, len(ps)

    def common(d, length, inst):
        # guarded writes, exact length, contiguous bytes
        R("guard", inst + ": returns the number of bytes written", d["ret"] == ("c", length),
          "returns %s but writes %d bytes" % (d["ret"][1], length))
        ks = sorted(d["stores"])
        R("guard", inst + ": writes bytes 0..%d" % (length - 1), ks == list(range(length)), "writes offsets %s" % ks)
        mx = max(ks) if ks else -1
        R("guard", inst + ": every write is guarded by buffer_size", d["slo"] >= mx + 1,
          "buffer[%d] is written on a path where buffer_size may be as small as %d" % (mx, d["slo"]))

    def failing(expect_len_for):
        for d in fail:
            R("guard", "failure path leaves the buffer untouched", not d["stores"],
              "returns 0 after writing buffer offsets %s" % sorted(d["stores"]))
            L = expect_len_for(d)
            if L is not None:
                R("guard", "fails only when the buffer is too small", d["shi"] < L,
                  "returns 0 although buffer_size may be %s >= %d" % (d["shi"], L))

    if mode == "byte":
        for d in succ:
            common(d, 1, "single byte")
            fb = first_byte(d["stores"].get(0))
            R("offset", "emits 0x%02X" % off, fb == ("const", off), "emits %s" % (fb,))
        R("cover", "has a success path", len(succ) >= 1, "no path writes the byte")
        failing(lambda d: 1)
        return res, len(ps)
    if mode == "bool":
        import termeval
        from build import AnalysisBroken as _AB
        seen = set()
        A0 = ("arg", 0)
        for d in succ:
            common(d, 1, "boolean")
            st = d["path"].st
            stored = d["stores"].get(0)
            for tv in (False, True):
                env = {A0: int(tv)}
                # is this truth value admitted by the path's facts about the parameter?
                admitted = True
                for (t, truth, _) in st.facts:
                    try:
                        if bool(termeval.evaluate(t, env, {})) != truth:
                            admitted = False
                    except _AB:
                        pass      # a fact about something else (buffer size)
                if not admitted:
                    continue
                want = off + 1 if tv else off
                try:
                    got = termeval.evaluate(stored, env, {}) & 0xFF if stored is not None else None
                except _AB:
                    got = None
                seen.add(tv)
                R("offset", "%s -> 0x%02X" % (tv, want), got == want, "emits %s for value %s" % (got if got is None else hex(got), tv))
        R("cover", "both truth values", seen == {True, False}, "paths cover %s" % seen)
        failing(lambda d: 1)
        return res, len(ps)
    if mode in ("fixed", "shortest"):
        vi = ps[0]["vi"]
        tmax = typemax_of(prog, fname, vi)
        if tmax is None:
            raise AnalysisBroken("%s: value parameter is not an integer" % fname)
        cls = classes(mode, width, tmax)
        V = ("arg", vi)
        covered = []

        def class_of(d):
            lo, hi = d["vlo"], d["vhi"] if d["vhi"] is not None else tmax
            hi = min(hi, tmax)
            for c in cls:
                if c[0] <= lo and hi <= c[1]:
                    return c, lo, hi
            return None, lo, hi
        for d in succ:
            c, lo, hi = class_of(d)
            inst = "values [%d, %d]" % (lo, hi)
            if c is None:
                R("shortest", inst, False, "one code path serves values that need different head widths (reference classes %s)"
                  % [(a, b) for a, b, _, _ in cls])
                continue
            clo, chi, n, imm = c
            covered.append((lo, hi))
            length = 1 if imm else 1 + n
            common(d, length, inst)
            fb = first_byte(d["stores"].get(0))
            if imm:
                ok = fb is not None and fb[0] == "imm" and fb[1] == off and fb[2] == V
                R("offset", inst + ": initial byte = 0x%02X + value" % off, ok, "initial byte is %s" % (fb,))
            else:
                ok = fb == ("const", off + AI[n])
                R("offset", inst + ": initial byte 0x%02X" % (off + AI[n]), ok, "initial byte is %s" % (fb,))
                okw = True
                for i in range(1, length):
                    bo = tables.byte_of(d["stores"].get(i)) if i in d["stores"] else None
                    if bo is None and d["stores"].get(i) == V and tmax <= 255:
                        bo = (V, 0, 8)  # an 8-bit parameter stored as is
                    want_shift = 8 * (n - i)
                    good = bo is not None and bo[0] == V and bo[1] == want_shift and bo[0] != "cut"
                    if not good:
                        okw = False
                        R("bytes", inst + ": buffer[%d]" % i, False,
                          "buffer[%d] must be (value >> %d) & 0xff (big-endian), got %s" % (i, want_shift, _fmt_byte(bo)))
                if okw:
                    R("bytes", inst + ": big-endian argument bytes 1..%d" % n, True)
            R("shortest", inst + ": %d-byte head" % length, True)
        # coverage of the whole domain by success paths
        covered.sort()
        pos = 0
        gap = None
        for lo, hi in covered:
            if lo > pos:
                gap = (pos, lo - 1)
                break
            pos = max(pos, hi + 1)
        if gap is None and pos <= tmax:
            gap = (pos, tmax)
        R("cover", "every value 0..%d has a success path" % tmax, gap is None, "values %s are never encoded" % (gap,))

        def flen(d):
            c, lo, hi = class_of(d)
            if c is None:
                # a refusing path that serves values of several head widths: it may refuse only what is too small for the
                # SHORTEST of them (a value of that class fits as soon as that many bytes are there)
                ls = [(1 if c_[3] else 1 + c_[2]) for c_ in cls if c_[0] <= hi and lo <= c_[1]]
                return min(ls) if ls else None
            return 1 if c[3] else 1 + c[2]
        failing(flen)
        return res, len(ps)
    if mode == "float":
        n = width
        nan_paths = 0
        for d in succ:
            st = d["path"].st
            ns = nan_status(st, n)
            isnan = ns is True
            notnan = ns is False
            if ns == "inexact":
                R("nan", "NaN test is exact", False, "the path tests the bit pattern in a way that is not equivalent to isnan(): some NaN "
                  "payloads escape canonicalisation (or some numbers are treated as NaN)")
            inst = "NaN" if isnan else "value"
            common(d, 1 + n, inst)
            fb = first_byte(d["stores"].get(0))
            R("offset", inst + ": initial byte 0x%02X" % (off + AI[n]), fb == ("const", off + AI[n]), "initial byte is %s" % (fb,))
            bs = [tables.byte_of(d["stores"].get(i)) if i in d["stores"] else None for i in range(1, 1 + n)]
            if isnan:
                nan_paths += 1
                want = [(NAN_BITS[n] >> (8 * (n - i))) & 0xFF for i in range(1, 1 + n)]
                got = [b[1] if b and b[0] == "const" else None for b in bs]
                R("nan", "canonical quiet NaN 0x%X" % NAN_BITS[n], got == want, "NaN is emitted as %s, canonical is %s" % (got, want))
            else:
                roots = set()
                ok = True
                for i, b in enumerate(bs, start=1):
                    if b is None or b[0] in ("cut",):
                        ok = False
                    elif b[0] == "const":
                        roots.add(("const",))
                        # a constant result (e.g. rounded-to-zero half) is big-endian trivially
                    else:
                        roots.add(b[0])
                        if b[1] != 8 * (n - i):
                            ok = False
                R("bytes", inst + ": big-endian bytes of one %d-bit pattern" % (8 * n), ok and len(roots) <= 1,
                  "bytes are not the big-endian image of a single value: %s" % [_fmt_byte(b) for b in bs])
                if n in (4, 8) and ok and roots and ("const",) not in roots:
                    X = next(iter(roots))
                    want = ("reinterpret", "i%d" % (8 * n), ("arg", 0))
                    R("bits", inst + ": integer image is the bit pattern of the parameter", X == want,
                      "encoded integer is %r, not the bit reinterpretation of the parameter" % (X,))
                    R("bits", inst + ": non-NaN path", notnan or True, "")
        R("nan", "has a NaN path", nan_paths >= 1, "no path tests for NaN: a NaN payload would be emitted unchanged")
        failing(lambda d: 1 + n)
        return res, len(ps)
    raise AnalysisBroken("unknown mode")


def _fmt_byte(b):
    if b is None:
        return "nothing"
    if b[0] == "const":
        return "constant 0x%02X" % b[1]
    if b[0] == "cut":
        return "a byte shifted out of a %d-bit truncation (>> %d)" % (b[3], b[2])
    return "(%s >> %d) & 0xff" % (P.__name__ and _short(b[0]), b[1])


def _short(t):
    import decoder_rules
    return decoder_rules.fmt_term(t)
