"""E1 - call graph and interprocedural effect summaries (mod-sets, escape,
allocation, external calls).  Flow-insensitive inside a function, iterated to a
fixpoint over the whole library; over-approximates writes, hence sound for
"never writes / never allocates / never calls" claims."""
from build import AnalysisBroken
from ir import Inst, Arg, Const, Null, Undef, GlobalRef, FuncRef, CExpr, Agg, Other, FConst, strip_casts

ALLOC_GLOBALS = ("_cbor_malloc", "_cbor_realloc", "_cbor_free")

# External (libc) functions the library is known to call, with their effect
# model: (writes_through arg indices, returns-derived arg indices, fresh result)
EXTERNAL_MODEL = {
    "memcpy": dict(writes=[0], ret=[0], copies=(1, 0)),
    "memmove": dict(writes=[0], ret=[0], copies=(1, 0)),
    "memset": dict(writes=[0], ret=[0]),
    "strlen": dict(writes=[], ret=[]),
    "ldexp": dict(writes=[], ret=[]),
    "fprintf": dict(writes=[0], ret=[]),
    "fwrite": dict(writes=[3], ret=[]),
    "__assert_fail": dict(writes=[], ret=[]),
    "llvm.memcpy.p0i8.p0i8.i64": dict(writes=[0], ret=[], copies=(1, 0)),
    "llvm.memset.p0i8.i64": dict(writes=[0], ret=[]),
    "llvm.dbg.value": dict(writes=[], ret=[]),
    "llvm.dbg.declare": dict(writes=[], ret=[]),
    "llvm.dbg.label": dict(writes=[], ret=[]),
    # stack / lifetime / hint intrinsics: no effect on program-visible memory
    "llvm.stacksave": dict(writes=[], ret=[]),
    "llvm.stackrestore": dict(writes=[], ret=[]),
    "llvm.lifetime.start.p0i8": dict(writes=[], ret=[]),
    "llvm.lifetime.end.p0i8": dict(writes=[], ret=[]),
    "llvm.assume": dict(writes=[], ret=[]),
    "llvm.expect.i64": dict(writes=[], ret=[]),
    "llvm.fabs.f32": dict(writes=[], ret=[]),
    "llvm.fabs.f64": dict(writes=[], ret=[]),
    "llvm.memmove.p0i8.p0i8.i64": dict(writes=[0], ret=[], copies=(1, 0)),
    # libc allocation entry points: only legal as initialisers of the three
    # pointers; a *call* is reported by C13 but still modelled soundly here
    "malloc": dict(writes=[], ret=[], fresh=True),
    "calloc": dict(writes=[], ret=[], fresh=True),
    "realloc": dict(writes=[0], ret=[0], fresh=True),
    "free": dict(writes=[0], ret=[]),
}
# value-only LLVM intrinsics (byte swaps, bit counts, funnel shifts, min/max, saturating arithmetic ...)
class _ValueIntrinsics(dict):
    """EXTERNAL_MODEL lookups fall back to 'pure value operation' for llvm.* intrinsics that cannot touch memory"""
    _MEM = ("llvm.memcpy", "llvm.memmove", "llvm.memset", "llvm.va_", "llvm.masked", "llvm.stackrestore", "llvm.eh.", "llvm.objc")

    def get(self, k, d=None):
        if k in self:
            return dict.get(self, k)
        if isinstance(k, str) and k.startswith("llvm.") and not k.startswith(self._MEM):
            return dict(writes=[], ret=[])
        return d


EXTERNAL_MODEL = _ValueIntrinsics(EXTERNAL_MODEL)
EXTERNAL_MODEL.setdefault("qsort", dict(writes=[0], ret=[]))
EXTERNAL_MODEL.setdefault("bsearch", dict(writes=[], ret=[1]))
for _n in ("strdup", "strndup"):
    EXTERNAL_MODEL.setdefault(_n, dict(writes=[], ret=[], fresh=True))
# value-only libm / libc routines: take and return scalars (or only read through their pointer arguments)
for _n in """ldexpf ldexpl fabs fabsf fabsl floor floorf ceil ceilf round roundf trunc truncf fmod fmodf sqrt sqrtf pow log exp
 copysign copysignf copysignl scalbn scalbnf scalbln scalblnf ilogb ilogbf logb logbf lround lroundf llround llroundf rint rintf
 lrint lrintf nearbyint nearbyintf fmin fminf fmax fmaxf fdim fdimf nan nanf nextafter nextafterf isnan isinf isfinite isnormal
 __isnan __isnanf __isinf __isinff __finite __finitef __fpclassify __fpclassifyf __signbit __signbitf
 abs labs llabs strnlen strcmp strncmp memcmp memchr strchr strrchr""".split():
    EXTERNAL_MODEL.setdefault(_n, dict(writes=[], ret=[]))
for _n in list(EXTERNAL_MODEL):
    if _n.startswith("llvm.fabs."):
        for _k in ("copysign", "floor", "ceil", "trunc", "round", "rint", "nearbyint", "sqrt", "minnum", "maxnum", "fmuladd", "fma"):
            for _t in ("f32", "f64"):
                EXTERNAL_MODEL.setdefault("llvm.%s.%s" % (_k, _t), dict(writes=[], ret=[]))


def indirect_kind(ins):
    """Classify an indirect call by the origin of its callee value."""
    v = strip_casts(ins.callee_val)
    if isinstance(v, Inst) and v.op == "load":
        src = strip_casts(v.operands[0])
        if isinstance(src, GlobalRef) and src.name in ALLOC_GLOBALS:
            return ("alloc", src.name)
        if isinstance(src, Inst) and src.op == "getelementptr" and "cbor_callbacks" in src.d.get("src_type", ""):
            idx = src.operands[-1]
            if isinstance(idx, Const):
                return ("callback", idx.v)
    return ("unknown", None)


def callback_param(prog, f, ins, depth=0):
    """an indirect call through a function-pointer parameter of a unit-internal helper, every call site of which passes a field
    of a struct cbor_callbacks table (loaded there) - or its own such parameter, one more level down: the client's callback,
    invoked by a helper.  Returns True / False"""
    v = strip_casts(getattr(ins, "callee_val", None))
    return isinstance(v, Arg) and _param_is_callback(prog, f, v.i, depth)


def _param_is_callback(prog, f, i, depth):
    if not (f.internal and depth < 4):
        return False
    sites = [(g, c) for g in prog.funcs.values() for c in g.calls(f.name)]
    if not sites:
        return False
    for g, c in sites:
        a = strip_casts(c.operands[i]) if i < len(c.operands) else None
        if isinstance(a, Inst) and a.op == "load":
            src = strip_casts(a.operands[0])
            if isinstance(src, Inst) and src.op == "getelementptr" and "cbor_callbacks" in src.d.get("src_type", ""):
                continue
        if isinstance(a, Arg) and g.name != f.name and _param_is_callback(prog, g, a.i, depth + 1):
            continue
        return False
    return True


def table_targets(prog, f, ins):
    """targets of an indirect call whose callee is loaded from a CONSTANT global table of function pointers
    (`static const fn_t table[] = {...}; table[i](...)`): list of function names, or None"""
    v = strip_casts(getattr(ins, "callee_val", None))
    if not (isinstance(v, Inst) and v.op == "load"):
        return None
    src = strip_casts(v.operands[0])
    if not (isinstance(src, Inst) and src.op == "getelementptr"):
        return None
    base = strip_casts(src.operands[0])
    if not isinstance(base, GlobalRef):
        return None
    g = prog.global_for(f, base.name)
    iv = g.get("init_val") if g else None
    if not (g and g.get("constant") and iv is not None and hasattr(iv, "elems")):
        return None
    names = []
    for el in iv.elems:
        el = strip_casts(el) if not hasattr(el, "name") else el
        n = getattr(el, "name", None)
        if n is None or n not in prog.funcs:
            return None
        names.append(n)
    return names or None


def indirect_targets(prog, f, ins, depth=0):
    """library functions an indirect call may reach when that is decidable from the program text: a constant dispatch
    table, or a function-pointer parameter of a unit-internal helper all of whose call sites pass library functions"""
    t = table_targets(prog, f, ins)
    if t:
        return t
    v = strip_casts(getattr(ins, "callee_val", None))
    if isinstance(v, Arg) and f.internal and depth < 3:
        out = []
        sites = [(g, c) for g in prog.funcs.values() for c in g.calls(f.name)]
        if not sites:
            return None
        for g, c in sites:
            a = strip_casts(c.operands[v.i]) if v.i < len(c.operands) else None
            n = getattr(a, "name", None)
            if isinstance(a, FuncRef) and n in prog.funcs:
                out.append(n)
            else:
                return None
        return sorted(set(out))
    # a field of a table of function pointers that a unit-internal helper receives by address (`ops->length(item)`): every call
    # site of the helper passes the address of a constant aggregate; the targets are that field's initialisers
    if isinstance(v, Inst) and v.op == "load" and f.internal and depth < 3:
        src = strip_casts(v.operands[0])
        off = 0
        if isinstance(src, Inst) and src.op == "getelementptr" and src.d.get("const_offset") is not None:
            off = src.d["const_offset"]
            src = strip_casts(src.operands[0])
        if isinstance(src, Arg):
            sites = [(g, c) for g in prog.funcs.values() for c in g.calls(f.name)]
            if not sites:
                return None
            out = []
            for g, c in sites:
                a = strip_casts(c.operands[src.i]) if src.i < len(c.operands) else None
                if not isinstance(a, GlobalRef):
                    return None
                gl = prog.global_for(g, a.name) or prog.globals.get(a.name)
                iv = gl.get("init_val") if gl and gl.get("constant") else None
                lay = prog.structs.get((gl.get("type") or "").lstrip("%")) if gl else None
                if iv is None or not hasattr(iv, "elems") or not lay or off not in lay.get("offsets", []) or len(iv.elems) != len(lay["offsets"]):
                    return None
                el = iv.elems[lay["offsets"].index(off)]
                el = strip_casts(el) if not hasattr(el, "name") else el
                n = getattr(el, "name", None)
                if n is None or n not in prog.funcs:
                    return None
                out.append(n)
            return sorted(set(out))
    return None


class Effects:
    def __init__(self, prog, include_extra=True):
        self.prog = prog
        self.funcs = dict(prog.funcs)
        self.summ = {}
        self.roots = {}      # fn name -> {value key -> set(roots)}
        self.contents = {}   # fn name -> {root -> set(roots)}
        for name in self.funcs:
            self.summ[name] = dict(writes=set(), ret=set(), stores=set(), allocates=False, frees=False,
                                   reallocs=False, ext=set(), callbacks=set(), callees=set(), unknown_indirect=[],
                                   write_sites={})
        self._solve()

    # -- root helpers
    def _vroots(self, fname, v):
        r = self.roots[fname]
        if isinstance(v, Inst):
            return r.get(v.id, frozenset())
        if isinstance(v, Arg):
            return frozenset([("param", v.i)])
        if isinstance(v, GlobalRef):
            return frozenset([("global", v.name)])
        if isinstance(v, CExpr):
            s = set()
            for o in v.operands:
                s |= self._vroots(fname, o)
            return frozenset(s)
        return frozenset()

    def _deref(self, fname, roots):
        """roots of a pointer-typed value loaded through a pointer with `roots`"""
        c = self.contents[fname]
        out = set()
        for r in roots:
            out |= c.get(r, set())
            if r[0] in ("param", "global", "unknown"):
                out.add(r)
        return out

    def _solve(self):
        for name in self.funcs:
            self.roots[name] = {}
            self.contents[name] = {}
        changed = True
        rounds = 0
        while changed:
            rounds += 1
            if rounds > 50:
                raise AnalysisBroken("effect fixpoint did not converge")
            changed = False
            for name, f in self.funcs.items():
                if self._analyse(f):
                    changed = True
        self.rounds = rounds

    def _analyse(self, f):
        name = f.name
        S = self.summ[name]
        R = self.roots[name]
        C = self.contents[name]
        before = (len(S["writes"]), len(S["ret"]), len(S["stores"]), S["allocates"], S["frees"], S["reallocs"],
                  len(S["ext"]), len(S["callbacks"]), len(S["callees"]))
        local_changed = True
        it = 0
        while local_changed:
            it += 1
            if it > 100:
                raise AnalysisBroken("%s: intraprocedural fixpoint did not converge" % name)
            local_changed = False

            def setroots(ins, s):
                nonlocal local_changed
                old = R.get(ins.id, frozenset())
                new = old | frozenset(s)
                if new != old:
                    R[ins.id] = new
                    local_changed = True

            def addcontents(target_roots, val_roots):
                nonlocal local_changed
                for r in target_roots:
                    cur = C.setdefault(r, set())
                    n = len(cur)
                    cur |= val_roots
                    if len(cur) != n:
                        local_changed = True

            def write(ins, target_roots):
                for r in target_roots:
                    if r[0] in ("param", "global", "unknown"):
                        S["writes"].add(r)
                        S["write_sites"].setdefault(r, [])
                        if ins not in S["write_sites"][r]:
                            S["write_sites"][r].append(ins)

            for ins in f.all_insts():
                op = ins.op
                if op == "alloca":
                    setroots(ins, [("local", ins.id)])
                elif op in ("bitcast", "getelementptr", "ptrtoint", "addrspacecast"):
                    setroots(ins, self._vroots(name, ins.operands[0]))
                elif op == "inttoptr":
                    rs = self._vroots(name, ins.operands[0])
                    setroots(ins, rs if rs else [("unknown", "inttoptr")])
                elif op in ("phi", "select"):
                    ops = ins.operands if op == "phi" else ins.operands[1:]
                    s = set()
                    for o in ops:
                        s |= self._vroots(name, o)
                    setroots(ins, s)
                elif op in ("add", "sub", "and", "or", "xor"):
                    s = set()
                    for o in ins.operands:
                        s |= self._vroots(name, o)
                    if s:
                        setroots(ins, s)
                elif op == "load":
                    pr = self._vroots(name, ins.operands[0])
                    if ins.type.endswith("*") or ins.type.startswith("%") or ins.type.startswith("{"):
                        setroots(ins, self._deref(name, pr))
                elif op == "extractvalue":
                    setroots(ins, self._vroots(name, ins.operands[0]))
                elif op == "insertvalue":
                    setroots(ins, self._vroots(name, ins.operands[0]) | self._vroots(name, ins.operands[1]))
                elif op == "store":
                    val, ptr = ins.operands
                    pr = self._vroots(name, ptr)
                    write(ins, pr)
                    vr = self._vroots(name, val)
                    if vr:
                        addcontents(pr, vr)
                        for t in pr:
                            if t[0] in ("param", "global"):
                                for v in vr:
                                    if v[0] in ("param", "global", "fresh", "unknown"):
                                        S["stores"].add((t, v))
                elif op == "ret":
                    if ins.operands:
                        for r in self._vroots(name, ins.operands[0]):
                            if r[0] in ("param", "global", "fresh", "unknown"):
                                S["ret"].add(r)
                            elif r[0] == "local":
                                # returning contents of a local aggregate (by value): use its contents
                                pass
                        # struct returned by value loaded from a local: roots already via load
                elif op == "call":
                    self._call(f, ins, S, setroots, addcontents, write)
        after = (len(S["writes"]), len(S["ret"]), len(S["stores"]), S["allocates"], S["frees"], S["reallocs"],
                 len(S["ext"]), len(S["callbacks"]), len(S["callees"]))
        return before != after

    def _call(self, f, ins, S, setroots, addcontents, write):
        name = f.name
        args = ins.operands
        aroots = [self._vroots(name, a) for a in args]
        callee = ins.callee
        if callee is None:
            tt_ = indirect_targets(self.prog, f, ins)
            if tt_:
                # a dispatch table of library functions: the union of the direct calls
                rr_all = set()
                for t_ in tt_:
                    rr_all |= self._direct(f, ins, S, t_, aroots, addcontents, write)
                if rr_all:
                    setroots(ins, rr_all)
                return
            kind, which = indirect_kind(ins)
            if kind == "unknown" and callback_param(self.prog, f, ins):
                kind, which = "callback", -1
            if kind == "alloc":
                if which == "_cbor_malloc":
                    S["allocates"] = True
                    setroots(ins, [("fresh", "malloc")])
                elif which == "_cbor_realloc":
                    S["allocates"] = True
                    S["reallocs"] = True
                    write(ins, aroots[0])
                    setroots(ins, set(aroots[0]) | {("fresh", "realloc")})
                else:
                    S["frees"] = True
                    write(ins, aroots[0])
            elif kind == "callback":
                S["callbacks"].add(which)
                # client code: may write through anything it is handed
                for ar in aroots:
                    write(ins, ar)
            else:
                if ins not in S["unknown_indirect"]:
                    S["unknown_indirect"].append(ins)
                for ar in aroots:
                    write(ins, ar)
                setroots(ins, [("unknown", "indirect")])
            return
        if callee in self.funcs:
            rr = self._direct(f, ins, S, callee, aroots, addcontents, write)
            if rr:
                # a value returned from memory reachable from an argument
                setroots(ins, rr)
            return
        # external
        S["ext"].add(callee)
        m = EXTERNAL_MODEL.get(callee)
        if m is None:
            # unknown external: conservatively writes through every argument
            for ar in aroots:
                write(ins, ar)
            setroots(ins, [("unknown", callee)])
            return
        for i in m["writes"]:
            if i < len(aroots):
                write(ins, aroots[i])
        rr = set()
        for i in m["ret"]:
            if i < len(aroots):
                rr |= aroots[i]
        if m.get("fresh"):
            rr.add(("fresh", callee))
        if "copies" in m:
            s, d = m["copies"]
            addcontents(aroots[d], self._deref(name, aroots[s]))
        if rr:
            setroots(ins, rr)

    def _direct(self, f, ins, S, callee, aroots, addcontents, write):
        """effects of a direct call of library function `callee` at `ins`; returns the roots of its result"""
        if True:
            S["callees"].add(callee)
            T = self.summ[callee]
            if T["allocates"]:
                S["allocates"] = True
            if T["frees"]:
                S["frees"] = True
            if T["reallocs"]:
                S["reallocs"] = True
            S["ext"] |= T["ext"]
            S["callbacks"] |= T["callbacks"]
            for r in list(T["writes"]):
                if r[0] == "param":
                    if r[1] < len(aroots):
                        write(ins, aroots[r[1]])
                else:
                    write(ins, [r])
            rr = set()
            for r in list(T["ret"]):
                if r[0] == "param":
                    if r[1] < len(aroots):
                        rr |= aroots[r[1]]
                else:
                    rr.add(r)
            # callee stores into memory reachable from its params
            for (t, v) in list(T["stores"]):
                troots = aroots[t[1]] if t[0] == "param" and t[1] < len(aroots) else ([t] if t[0] != "param" else [])
                vroots = aroots[v[1]] if v[0] == "param" and v[1] < len(aroots) else ([v] if v[0] != "param" else [])
                addcontents(troots, set(vroots))
                for tt in troots:
                    if tt[0] in ("param", "global"):
                        for vv in vroots:
                            if vv[0] in ("param", "global", "fresh", "unknown"):
                                S["stores"].add((tt, vv))
            return rr

    # -- queries
    def writes_through(self, fname, param_index):
        return ("param", param_index) in self.summ[fname]["writes"]

    def write_witness(self, fname, root, depth=0, seen=None):
        """a call chain explaining why fname writes through `root`"""
        seen = seen or set()
        if (fname, root) in seen or depth > 12:
            return []
        seen.add((fname, root))
        S = self.summ[fname]
        sites = S["write_sites"].get(root, [])
        for ins in sites:
            if ins.op == "store":
                return [(fname, ins, "store")]
        for ins in sites:
            if ins.op == "call":
                if ins.callee in self.funcs:
                    T = self.summ[ins.callee]
                    for r in list(T["writes"]):
                        if r[0] == "param" and r[1] < len(ins.operands) and root in self._vroots(fname, ins.operands[r[1]]):
                            rest = self.write_witness(ins.callee, r, depth + 1, seen)
                            if rest:
                                return [(fname, ins, "call")] + rest
                        elif r == root:
                            rest = self.write_witness(ins.callee, r, depth + 1, seen)
                            if rest:
                                return [(fname, ins, "call")] + rest
                else:
                    return [(fname, ins, "external/indirect call")]
        return [(fname, sites[0], "?")] if sites else []

    def transitive_callees(self, fname):
        seen = set()
        stack = [fname]
        while stack:
            x = stack.pop()
            for c in self.summ[x]["callees"]:
                if c not in seen:
                    seen.add(c)
                    stack.append(c)
        return seen

    def sccs(self):
        """Tarjan over the direct call graph; returns list of SCCs (lists of names)"""
        index = {}
        low = {}
        onstack = set()
        stack = []
        out = []
        counter = [0]
        import sys
        sys.setrecursionlimit(10000)

        def strong(v):
            index[v] = low[v] = counter[0]
            counter[0] += 1
            stack.append(v)
            onstack.add(v)
            for w in self.summ[v]["callees"]:
                if w not in index:
                    strong(w)
                    low[v] = min(low[v], low[w])
                elif w in onstack:
                    low[v] = min(low[v], index[w])
            if low[v] == index[v]:
                comp = []
                while True:
                    w = stack.pop()
                    onstack.discard(w)
                    comp.append(w)
                    if w == v:
                        break
                out.append(comp)
        for v in self.funcs:
            if v not in index:
                strong(v)
        return out
