"""Concrete evaluation of path-engine terms over small finite domains (used to
tabulate constant-table driven functions exhaustively, e.g. the UTF-8 DFA)."""
from build import AnalysisBroken


class OutOfBounds(Exception):
    pass


def mask(bits):
    return (1 << bits) - 1


def bits_of(ty):
    return int(ty[1:]) if ty.startswith("i") and ty[1:].isdigit() else 64


def evaluate(t, env, tables):
    """env: {leaf term: int}; tables: {global name: list of ints}"""
    if t in env:
        return env[t]
    k = t[0]
    if k == "c":
        return t[1]
    if k == "cast":
        v = evaluate(t[3], env, tables)
        if t[1] == "trunc":
            return v & mask(bits_of(t[2]))
        if t[1] == "zext":
            return v
        if t[1] == "sext":
            inner = t[3]
            sb = bits_of(inner[2]) if isinstance(inner, tuple) and inner[0] in ("op", "cast") else 32
            if v >> (sb - 1):
                v = (v - (1 << sb)) & mask(bits_of(t[2]))
            return v
        raise AnalysisBroken("termeval: cast %s" % t[1])
    if k == "op":
        op, ty = t[1], t[2]
        a = evaluate(t[3], env, tables)
        b = evaluate(t[4], env, tables)
        bits = bits_of(ty)
        if op == "add":
            r = a + b
        elif op == "sub":
            r = a - b
        elif op == "mul":
            r = a * b
        elif op == "and":
            r = a & b
        elif op == "or":
            r = a | b
        elif op == "xor":
            r = a ^ b
        elif op == "shl":
            r = a << b if b < bits else 0
        elif op == "lshr":
            r = a >> b if b < bits else 0
        elif op == "ashr":
            if a >> (bits - 1):
                a -= 1 << bits
            r = a >> min(b, bits - 1)
        else:
            raise AnalysisBroken("termeval: op %s" % op)
        return r & mask(bits)
    if k == "ld":
        base, off = t[1], t[2]
        if isinstance(base, tuple) and base[0] == "idx" and base[1][0] == "g" and base[1][1] in tables:
            idx = base[3]
            if len(idx) != 2 or evaluate(idx[0], env, tables) != 0 or off != 0:
                raise AnalysisBroken("termeval: unexpected table indexing %r" % (base,))
            i = evaluate(idx[1], env, tables)
            T = tables[base[1][1]]
            if not (0 <= i < len(T)):
                raise OutOfBounds("index %d outside table %s[%d]" % (i, base[1][1], len(T)))
            return T[i]
        raise AnalysisBroken("termeval: load from %r" % (base,))
    if k == "icmp":
        a = evaluate(t[2], env, tables)
        b = evaluate(t[3], env, tables)
        if t[1] in ("slt", "sle", "sgt", "sge"):
            w = width_of(t[2]) or width_of(t[3])
            if w is None:
                raise AnalysisBroken("termeval: width of a signed comparison unknown: %r" % (t,))
            if a >> (w - 1):
                a -= 1 << w
            if b >> (w - 1):
                b -= 1 << w
            return int({"slt": a < b, "sle": a <= b, "sgt": a > b, "sge": a >= b}[t[1]])
        return int({"eq": a == b, "ne": a != b, "ult": a < b, "ule": a <= b, "ugt": a > b, "uge": a >= b}[t[1]])
    if k == "not":
        return 1 - evaluate(t[1], env, tables)
    if k == "sel":
        return evaluate(t[2], env, tables) if evaluate(t[1], env, tables) else evaluate(t[3], env, tables)
    if k in ("in", "notin"):
        v = evaluate(t[1], env, tables)
        return int((v in t[2]) == (k == "in"))
    raise AnalysisBroken("termeval: term %r" % (t,))


def width_of(t):
    """bit width of an integer term, where the term itself says so"""
    if isinstance(t, tuple):
        if t[0] == "op":
            return bits_of(t[2])
        if t[0] == "cast":
            return bits_of(t[2])
    return None


def compile_terms(terms, leaves, tables=None):
    """Compile integer terms into one Python function f(*leaf_values) -> tuple of values (same semantics as
    evaluate, common subterms computed once).  `leaves` is the ordered list of leaf terms."""
    tables = tables or {}
    lines = []
    names = {}
    for i, l in enumerate(leaves):
        names[l] = "a%d" % i

    def emit(expr):
        n = "v%d" % len(lines)
        lines.append("    %s = %s" % (n, expr))
        return n

    def go(t):
        if t in names:
            return names[t]
        k = t[0]
        if k == "c":
            r = emit(str(t[1]))
        elif k == "cast":
            v = go(t[3])
            if t[1] == "trunc":
                r = emit("%s & %d" % (v, mask(bits_of(t[2]))))
            elif t[1] == "zext":
                r = v
            elif t[1] == "sext":
                inner = t[3]
                sb = bits_of(inner[2]) if isinstance(inner, tuple) and inner[0] in ("op", "cast") else 32
                r = emit("((%s - %d) & %d) if (%s >> %d) else %s" % (v, 1 << sb, mask(bits_of(t[2])), v, sb - 1, v))
            else:
                raise AnalysisBroken("termeval: cast %s" % t[1])
        elif k == "op":
            op, ty = t[1], t[2]
            a, b = go(t[3]), go(t[4])
            bits = bits_of(ty)
            m = mask(bits)
            if op in ("add", "sub", "mul", "and", "or", "xor"):
                sym = {"add": "+", "sub": "-", "mul": "*", "and": "&", "or": "|", "xor": "^"}[op]
                r = emit("(%s %s %s) & %d" % (a, sym, b, m))
            elif op == "shl":
                r = emit("((%s << %s) & %d) if %s < %d else 0" % (a, b, m, b, bits))
            elif op == "lshr":
                r = emit("(%s >> %s) if %s < %d else 0" % (a, b, b, bits))
            elif op == "ashr":
                r = emit("(((%s - %d) if (%s >> %d) else %s) >> min(%s, %d)) & %d" % (a, 1 << bits, a, bits - 1, a, b, bits - 1, m))
            else:
                raise AnalysisBroken("termeval: op %s" % op)
        elif k == "icmp":
            a, b = go(t[2]), go(t[3])
            if t[1] in ("slt", "sle", "sgt", "sge"):
                w = width_of(t[2]) or width_of(t[3])
                if w is None:
                    raise AnalysisBroken("termeval: width of a signed comparison unknown: %r" % (t,))
                sa = emit("(%s - %d) if (%s >> %d) else %s" % (a, 1 << w, a, w - 1, a))
                sb_ = emit("(%s - %d) if (%s >> %d) else %s" % (b, 1 << w, b, w - 1, b))
                sym = {"slt": "<", "sle": "<=", "sgt": ">", "sge": ">="}[t[1]]
                r = emit("int(%s %s %s)" % (sa, sym, sb_))
            else:
                sym = {"eq": "==", "ne": "!=", "ult": "<", "ule": "<=", "ugt": ">", "uge": ">="}[t[1]]
                r = emit("int(%s %s %s)" % (a, sym, b))
        elif k == "not":
            r = emit("1 - %s" % go(t[1]))
        elif k in ("in", "notin"):
            r = emit("int((%s in %r) == %r)" % (go(t[1]), tuple(t[2]), k == "in"))
        elif k == "sel":
            r = emit("(%s) if (%s) else (%s)" % (go(t[2]), go(t[1]), go(t[3])))
        else:
            raise AnalysisBroken("termeval: term %r" % (t,))
        names[t] = r
        return r
    outs = [go(t) for t in terms]
    src = "def _f(%s):\n%s\n    return (%s,)\n" % (", ".join("a%d" % i for i in range(len(leaves))), "\n".join(lines) or "    pass", ", ".join(outs))
    ns = {}
    exec(src, ns)
    return ns["_f"]


def to_python(t, names):
    """Python source of a term over 64-bit values (leaves named by `names`): for evaluating one fact over a large value set"""
    if t in names:
        return names[t]
    k = t[0]
    if k == "c":
        return str(t[1])
    if k == "cast":
        v = to_python(t[3], names)
        if t[1] == "trunc":
            return "(%s & %d)" % (v, mask(bits_of(t[2])))
        if t[1] == "zext":
            return v
        raise AnalysisBroken("termeval.to_python: cast %s" % t[1])
    if k == "op":
        a, b = to_python(t[3], names), to_python(t[4], names)
        m = mask(bits_of(t[2]))
        o = {"add": "+", "sub": "-", "mul": "*", "and": "&", "or": "|", "xor": "^"}.get(t[1])
        if o:
            return "((%s %s %s) & %d)" % (a, o, b, m)
        if t[1] == "shl":
            return "((%s << %s) & %d)" % (a, b, m)
        if t[1] == "lshr":
            return "(%s >> %s)" % (a, b)
        raise AnalysisBroken("termeval.to_python: op %s" % t[1])
    if k == "icmp":
        a, b = to_python(t[2], names), to_python(t[3], names)
        o = {"eq": "==", "ne": "!=", "ult": "<", "ule": "<=", "ugt": ">", "uge": ">="}.get(t[1])
        if o is None:
            raise AnalysisBroken("termeval.to_python: signed comparison")
        return "(%s %s %s)" % (a, o, b)
    if k == "not":
        return "(not %s)" % to_python(t[1], names)
    raise AnalysisBroken("termeval.to_python: %s" % k)
