"""Concrete evaluation of path-engine terms over small finite domains (used to
tabulate constant-table driven functions exhaustively, e.g. the UTF-8 DFA)."""
from build import AnalysisBroken


class OutOfBounds(Exception):
    pass


def mask(bits):
    return (1 << bits) - 1


def bits_of(ty):
    return int(ty[1:]) if ty.startswith("i") and ty[1:].isdigit() else 64


def evaluate(t, env, tables):
    """env: {leaf term: int}; tables: {global name: list of ints}"""
    if t in env:
        return env[t]
    k = t[0]
    if k == "c":
        return t[1]
    if k == "cast":
        v = evaluate(t[3], env, tables)
        if t[1] == "trunc":
            return v & mask(bits_of(t[2]))
        if t[1] == "zext":
            return v
        if t[1] == "sext":
            inner = t[3]
            sb = bits_of(inner[2]) if isinstance(inner, tuple) and inner[0] in ("op", "cast") else 32
            if v >> (sb - 1):
                v = (v - (1 << sb)) & mask(bits_of(t[2]))
            return v
        raise AnalysisBroken("termeval: cast %s" % t[1])
    if k == "op":
        op, ty = t[1], t[2]
        a = evaluate(t[3], env, tables)
        b = evaluate(t[4], env, tables)
        bits = bits_of(ty)
        if op == "add":
            r = a + b
        elif op == "sub":
            r = a - b
        elif op == "mul":
            r = a * b
        elif op == "and":
            r = a & b
        elif op == "or":
            r = a | b
        elif op == "xor":
            r = a ^ b
        elif op == "shl":
            r = a << b if b < bits else 0
        elif op == "lshr":
            r = a >> b if b < bits else 0
        elif op == "ashr":
            if a >> (bits - 1):
                a -= 1 << bits
            r = a >> min(b, bits - 1)
        else:
            raise AnalysisBroken("termeval: op %s" % op)
        return r & mask(bits)
    if k == "ld":
        base, off = t[1], t[2]
        if isinstance(base, tuple) and base[0] == "idx" and base[1][0] == "g" and base[1][1] in tables:
            idx = base[3]
            if len(idx) != 2 or evaluate(idx[0], env, tables) != 0 or off != 0:
                raise AnalysisBroken("termeval: unexpected table indexing %r" % (base,))
            i = evaluate(idx[1], env, tables)
            T = tables[base[1][1]]
            if not (0 <= i < len(T)):
                raise OutOfBounds("index %d outside table %s[%d]" % (i, base[1][1], len(T)))
            return T[i]
        raise AnalysisBroken("termeval: load from %r" % (base,))
    if k == "icmp":
        a = evaluate(t[2], env, tables)
        b = evaluate(t[3], env, tables)
        return int({"eq": a == b, "ne": a != b, "ult": a < b, "ule": a <= b, "ugt": a > b, "uge": a >= b}[t[1]])
    if k == "not":
        return 1 - evaluate(t[1], env, tables)
    raise AnalysisBroken("termeval: term %r" % (t,))
