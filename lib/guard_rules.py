"""Shared rule: the arithmetic guard predicates mean what their callers take them to mean.

Every container allocation (count * element size) and every growth step relies on _cbor_safe_to_multiply, every size sum on
_cbor_safe_to_add; callers use the *call* as the fact "does not wrap" (C20.audit idiom 1, C12.growth, C01 allocation sizes).
The rule judges the predicates' own bodies on the path engine: a path that answers `true` must carry a no-wrap witness on
the full-width parameters.  The bit-length helper the multiply guard is built from is judged the same way (check_highest_bit)."""
import paths as P
from paths import is_const
import decoder_rules as DR


def check_guard_semantics(chk, prog, eff, cache, rule):
    chk.rule(rule, "_cbor_safe_to_add answers true only on a path that establishes, on the full-width parameters "
                   "themselves, that their sum did not wrap (sum >= operand, or the 64-bit checked-add intrinsic); "
                   "_cbor_safe_to_multiply answers true only where an operand is <= 1, the bit lengths of the two "
                   "parameters add up to at most 64, or the 64-bit checked-multiply intrinsic reports no overflow; "
                   "_cbor_highest_bit returns exactly the bit length of its argument")
    A0, A1 = ("arg", 0), ("arg", 1)
    SUM = (("op", "add", "i64", A0, A1), ("op", "add", "i64", A1, A0))

    def strip_bool(t):
        neg = False
        while isinstance(t, tuple) and t[0] in ("cast", "not"):
            if t[0] == "not":
                neg = not neg
                t = t[1]
            else:
                t = t[3]
        return t, neg

    def no_wrap_add(t, truth, pa):
        """does `t == truth` imply that arg0 + arg1 does not wrap?"""
        t, neg = strip_bool(t)
        truth = truth != neg
        if isinstance(t, tuple) and t[0] == "icmp" and len(t) == 4:
            l, r = t[2], t[3]
            if l in SUM and r in (A0, A1):
                return (t[1] == "uge" and truth) or (t[1] == "ult" and not truth)
            if r in SUM and l in (A0, A1):
                return (t[1] == "ule" and truth) or (t[1] == "ugt" and not truth)
        if isinstance(t, tuple) and t[0] == "xv" and t[2] == (1,) and isinstance(t[1], tuple) and t[1][0] == "call":
            ev = [e for e in pa.events if e.kind == "call" and e.res == t[1]]
            if ev and t[1][1] == "llvm.uadd.with.overflow.i64" and set(ev[0].args) == {A0, A1}:
                return not truth      # overflow bit false
        return False

    def no_wrap_mul(t, truth, pa):
        t, neg = strip_bool(t)
        truth = truth != neg
        if isinstance(t, tuple) and t[0] == "icmp" and len(t) == 4:
            # an operand is 0 or 1
            for x in (A0, A1):
                if t[2] == x and P.is_const(t[3]):
                    c = t[3][1]
                    if (t[1] == "ule" and c <= 1 and truth) or (t[1] == "ult" and c <= 2 and truth) or (t[1] == "eq" and c in (0, 1) and truth) or \
                            (t[1] == "ugt" and c <= 1 and not truth) or (t[1] == "uge" and c <= 2 and not truth):
                        return True
            # bit lengths add up to at most the width
            l, r = t[2], t[3]
            if isinstance(l, tuple) and l[0] == "op" and l[1] == "add" and P.is_const(r):
                hb = [x for x in (l[3], l[4]) if isinstance(x, tuple) and x[0] == "call" and x[1] == "_cbor_highest_bit"]
                if len(hb) == 2:
                    args_ = set()
                    for h_ in hb:
                        ev = [e for e in pa.events if e.kind == "call" and e.res == h_]
                        if ev:
                            args_.add(ev[0].args[0])
                    if args_ == {A0, A1}:
                        return (t[1] == "ule" and r[1] <= 64 and truth) or (t[1] == "ult" and r[1] <= 65 and truth) or \
                               (t[1] == "ugt" and r[1] <= 64 and not truth) or (t[1] == "uge" and r[1] <= 65 and not truth)
        if isinstance(t, tuple) and t[0] == "xv" and t[2] == (1,) and isinstance(t[1], tuple) and t[1][0] == "call":
            ev = [e for e in pa.events if e.kind == "call" and e.res == t[1]]
            if ev and t[1][1] == "llvm.umul.with.overflow.i64" and set(ev[0].args) == {A0, A1}:
                return not truth
        return False
    ngs = 0
    for gname, witness in (("_cbor_safe_to_add", no_wrap_add), ("_cbor_safe_to_multiply", no_wrap_mul)):
        gf = prog.fn(gname)
        for k, pa in enumerate(cache.get(gname)):
            r = pa.ret
            if r == ("c", 0):
                continue
            ngs += 1
            ok = any(witness(t, truth, pa) for t, truth, _ in pa.facts) or (not is_const(r) and witness(r, True, pa))
            chk.ob(rule, "%s path %d: 'safe' is answered only with a no-wrap witness on the parameters" % (gname, k), ok,
                   "%s:%d" % (gf.file, gf.line), fn=gname, key="guardsem:%s:%d" % (gname, k),
                   detail="" if ok else "returns %s on a path whose facts %s do not establish that the full-width operation cannot wrap (e.g. a "
                                        "narrower intrinsic, a test on truncated operands)" % (DR.fmt_term(r), [DR.fmt_term(t) for t, _tr, _ in pa.facts][:4]),
                   path=pa.block_lines() if not ok else None)
    chk.floor(rule, "answering paths of the two guard helpers", ngs, 3)

    check_highest_bit(chk, prog, eff, cache, rule)


def _shift_depth(t):
    """t == arg0 >> d (logical, constant distances, possibly through width-preserving casts): d; else None"""
    d = 0
    while True:
        while isinstance(t, tuple) and t[0] == "cast" and t[1] in ("zext", "bitcast") :
            t = t[3]
        if t == ("arg", 0):
            return d
        if isinstance(t, tuple) and t[0] == "op" and t[1] == "lshr" and is_const(t[4]):
            d += t[4][1]
            t = t[3]
            continue
        return None


def check_highest_bit(chk, prog, eff, cache, rule, name="_cbor_highest_bit", width=64):
    """the bit-length helper: unrolled `width` times, every returning path must pin the bit length L of the argument to
    the value it returns.  Facts of the form (arg0 >> j) != 0 say L > j, (arg0 >> j) == 0 says L <= j; a path that
    returns the constant c must carry L > c-1 (or c == 0) and L <= c.  The closed form `width - ctlz(arg0)` (argument
    known non-zero, or ctlz defined at zero) is the same function.  Any other shape is not decided here."""
    f = prog.funcs.get(name)
    if f is None:
        return      # a multiply guard built on something else (checked-multiply intrinsic) has no bit-length helper to judge
    paths_ = P.Executor(prog, eff, loop_bound=width, max_paths=4 * width + 8).run(name)
    seen_c = set()
    undecided = []
    for k, pa in enumerate(paths_):
        lo, hi = 0, width          # lo <= L <= hi
        unknown = []
        for t, truth, _ in pa.facts:
            if not (isinstance(t, tuple) and t[0] == "icmp" and len(t) == 4):
                unknown.append(t)
                continue
            pred, l, r = t[1], t[2], t[3]
            dl = _shift_depth(l)
            if dl is None or not is_const(r):
                unknown.append(t)
                continue
            c = r[1]
            # a statement about v = arg0 >> dl: v >= m says L >= dl + bitlen(m) (m > 0), v <= m says L <= dl + bitlen(m)
            if not truth:
                pred = {"eq": "ne", "ne": "eq", "ugt": "ule", "ule": "ugt", "uge": "ult", "ult": "uge"}.get(pred)
            if pred == "ne" and c == 0:
                pred, c = "uge", 1
            elif pred == "eq" and c == 0:
                pred, c = "ule", 0
            if pred == "ugt":
                pred, c = "uge", c + 1
            elif pred == "ult" and c > 0:
                pred, c = "ule", c - 1
            if pred == "uge" and 0 < c < (1 << width):
                lo = max(lo, min(width + 1, dl + c.bit_length()))
            elif pred == "uge" and c == 0:
                pass
            elif pred == "ule" and c >= 0:
                hi = min(hi, dl + c.bit_length())
            else:
                unknown.append(t)
        r = pa.ret
        rr = r
        while isinstance(rr, tuple) and rr[0] == "cast":
            rr = rr[3]
        if lo > hi:
            continue                # infeasible (more shifts than the width has bits)
        if is_const(r) and not unknown:
            ok = r[1] >= hi          # an over-estimate only makes the guard refuse more; an under-estimate lets a product wrap
            seen_c.update(range(lo, hi + 1))
            chk.ob(rule, "%s path %d: returns %d only when the argument's bit length is at most %d" % (name, k, r[1], r[1]), ok,
                   "%s:%d" % (f.file, f.line), fn=name, key="hb:%d" % k,
                   detail="" if ok else "returns %d on a path whose tests establish a bit length in [%d, %d]" % (r[1], lo, hi),
                   path=pa.block_lines() if not ok else None)
            continue
        # closed form: width - ctlz(arg0)
        if isinstance(rr, tuple) and rr[0] == "op" and rr[1] == "sub" and is_const(rr[3]) and not unknown:
            cz = rr[4]
            while isinstance(cz, tuple) and cz[0] == "cast":
                cz = cz[3]
            ev = [e for e in pa.events if e.kind == "call" and e.res == cz and e.callee == "llvm.ctlz.i%d" % width]
            if ev and _shift_depth(ev[0].args[0]) == 0:
                zero_defined = ev[0].args[1] == ("c", 0)
                ok = rr[3][1] >= width and (lo >= 1 or zero_defined)
                seen_c.update(range(lo, hi + 1))
                chk.ob(rule, "%s path %d: returns %d minus the leading-zero count of the argument" % (name, k, width), ok,
                       "%s:%d" % (f.file, f.line), fn=name, key="hb:%d" % k,
                       detail="" if ok else "returns %s where the argument %s" % (DR.fmt_term(r), "may be zero (undefined count)" if rr[3][1] >= width else "width is %d" % width),
                       path=pa.block_lines() if not ok else None)
                continue
        undecided.append("path %d returns %s under %s" % (k, DR.fmt_term(r), [DR.fmt_term(t) for t in unknown][:3]))
    if undecided:
        chk.floor(rule, "%s has a shape the bit-length rule decides (%s)" % (name, "; ".join(undecided[:2])), 0, 1)
        return
    missing = [c for c in range(width + 1) if c not in seen_c]
    chk.ob(rule, "%s: every bit length 0..%d is answered" % (name, width), not missing, "%s:%d" % (f.file, f.line), fn=name, key="hb:cover",
           detail="" if not missing else "no returning path for bit lengths %s" % missing[:6])
