"""Structural-descent check for the recursive SCCs of the call graph
(C01 rule 5b, C19 rule 5): every cycle must descend at least one level of the
item tree, i.e. after deleting the call edges whose item argument is strictly
deeper (reached through more pointer loads) than the caller's own item, the SCC
is acyclic."""
from build import AnalysisBroken
from ir import Inst, Arg, Const, Null, GlobalRef, CExpr, strip_casts

INF = 99


def item_params(f):
    """[(index, entry depth)] of the item parameters: depth 0 for cbor_item_t*, 1 for cbor_item_t**"""
    out = []
    for i, p in enumerate(f.params):
        if p["type"] == "%struct.cbor_item_t*":
            out.append((i, 0))
        elif p["type"] in ("%struct.cbor_item_t**", "%struct.cbor_pair*"):
            out.append((i, 1))     # one load away from an item (a slot of a table / a key-value pair inside one)
    return out


def item_param(f):
    """the first item parameter (index, entry depth), or (None, None)"""
    ps = item_params(f)
    return ps[0] if ps else (None, None)


class Depth:
    def __init__(self, prog, eff):
        self.prog, self.eff = prog, eff
        self._ret = {}

    def load_depth(self, f, v, pi, seen=None):
        """minimum number of pointer loads between parameter pi and value v (None if v does not derive from pi)"""
        seen = seen if seen is not None else set()
        v = strip_casts(v)
        if isinstance(v, Arg):
            return 0 if v.i == pi else None
        if not isinstance(v, Inst):
            return None
        if v.id in seen:
            return None
        seen = seen | {v.id}
        if v.op in ("getelementptr", "bitcast"):
            return self.load_depth(f, v.operands[0], pi, seen)
        if v.op == "load":
            from ir import apath
            root, steps = apath(v.operands[0])
            if root[0] == "inst" and f.insts[root[1]].op == "alloca" and ("load",) not in steps:
                # a local (e.g. a by-value struct parameter spilled to the frame): not a level of the item tree -
                # the value is whatever was stored into that cell
                ds = []
                for s_ in f.all_insts():
                    if s_.op == "store" and apath(s_.operands[1]) == (root, steps):
                        d = self.load_depth(f, s_.operands[0], pi, seen)
                        if d is not None:
                            ds.append(d)
                return min(ds) if ds else None
            d = self.load_depth(f, v.operands[0], pi, seen)
            return None if d is None else d + 1
        if v.op in ("phi", "select"):
            ops = v.operands if v.op == "phi" else v.operands[1:]
            ds = [self.load_depth(f, o, pi, seen) for o in ops]
            ds = [d for d in ds if d is not None]
            return min(ds) if ds else None
        if v.op == "call" and v.callee in self.prog.funcs:
            best = None
            for j, a in enumerate(v.operands):
                rd = self.ret_depth(v.callee, j)
                if rd is None:
                    continue
                d = self.load_depth(f, a, pi, seen)
                if d is not None:
                    best = d + rd if best is None else min(best, d + rd)
            return best
        return None

    def ret_depth(self, gname, j):
        """minimum load depth of g's return value relative to its parameter j"""
        key = (gname, j)
        if key in self._ret:
            return self._ret[key]
        self._ret[key] = None
        g = self.prog.funcs[gname]
        best = None
        for r in g.returns():
            if r.operands:
                d = self.load_depth(g, r.operands[0], j)
                if d is not None:
                    best = d if best is None else min(best, d)
        self._ret[key] = best
        return best


def check_sccs(prog, eff):
    """returns list of dict(scc=[names], edges=[(caller, callee, inst, label, detail)], ok, cycle)"""
    D = Depth(prog, eff)
    out = []
    for comp in eff.sccs():
        comp = [c for c in comp if not prog.funcs[c].is_extra]
        if not comp:
            continue
        if len(comp) == 1 and comp[0] not in eff.summ[comp[0]]["callees"]:
            continue
        cs = set(comp)
        # the measure: one item parameter per function (sigma); every cycle must descend for ONE consistent choice.
        # Functions with several item parameters (a helper taking the container under construction and the source
        # element) are tried with each.
        import itertools
        cands = [item_params(prog.funcs[name]) or [(None, None)] for name in comp]
        total = 1
        for c_ in cands:
            total *= len(c_)
        if total > 256:
            cands = [c_[:1] for c_ in cands]
        best = None
        for choice in itertools.product(*cands):
            sigma = dict(zip(comp, choice))
            edges = []
            for name in comp:
                f = prog.funcs[name]
                pi, d0 = sigma[name]
                from effects import table_targets as _tt
                for c in f.calls():
                    targets = [c.callee] if c.callee else (_tt(prog, f, c) or [])
                    for callee_ in targets:
                        if callee_ not in cs:
                            continue
                        gi, g0 = sigma[callee_]
                        label, detail = "same", ""
                        if pi is None or gi is None:
                            label, detail = "unknown", "no item parameter"
                        else:
                            d = D.load_depth(f, c.operands[gi], pi)
                            if d is None:
                                label, detail = "unknown", "argument does not derive from the caller's item"
                            elif d + g0 > d0:
                                label, detail = "child", "item argument is %d load(s) deeper" % (d + g0 - d0)
                        if label == "unknown":
                            # recursion driven by the decoding stack: the call is preceded, in this function, by a pop of a frame
                            pops = [p_ for p_ in f.calls("_cbor_stack_pop") if f.dominates(p_, c)]
                            if pops and not any(True for _ in f.calls("_cbor_stack_push")):
                                label, detail = "pops", "preceded by _cbor_stack_pop at %s" % pops[0].loc()
                        edges.append((name, callee_, c, label, detail))
            # cycle detection on non-descending edges
            adj = {}
            for a, b, c, label, _ in edges:
                if label not in ("child", "pops"):
                    adj.setdefault(a, []).append((b, c))
            cyc = _find_cycle(adj, comp)
            if best is None or (cyc is None and best[1] is not None):
                best = (edges, cyc)
            if cyc is None:
                break
        edges, cyc = best
        dyn = []
        for name in comp:
            for i in prog.funcs[name].all_insts():
                if i.op == "alloca" and not i.d.get("static", True):
                    dyn.append(i)
        out.append(dict(scc=sorted(comp), edges=edges, cycle=cyc, dynamic_allocas=dyn))
    return out


def _find_cycle(adj, nodes):
    color = {}
    stack = []

    def dfs(u):
        color[u] = 1
        for v, c in adj.get(u, []):
            if color.get(v) == 1:
                return stack + [(u, v, c)]
            if color.get(v) is None:
                stack.append((u, v, c))
                r = dfs(v)
                if r:
                    return r
                stack.pop()
        color[u] = 2
        return None
    for n in nodes:
        if color.get(n) is None:
            r = dfs(n)
            if r:
                return r
    return None
