"""Front end: turn /repo's current working tree into IR facts.

Nothing here executes library code.  Every run re-reads /repo, regenerates the
two CMake-generated headers in a scratch directory, compiles every unit of the
SOURCES list to LLVM IR with clang-14, promotes locals with opt-14 mem2reg and
exports the module as JSON with build/irfacts.
"""
import atexit
import concurrent.futures
import json
import os
import re
import shutil
import subprocess
import sys
import tempfile

VERIF = os.path.dirname(os.path.dirname(os.path.abspath(__file__)))
REPO = os.environ.get("VERIF_REPO", "/repo")
IRFACTS = os.path.join(VERIF, "build", "irfacts")
CLANG = "clang-14"
OPT = "opt-14"


class AnalysisBroken(Exception):
    """The analysis cannot decide (missing anchor, unknown shape, tool failure).
    Mapped to exit status 2 - never a pass, never a violation."""


_scratch = None


def scratch():
    global _scratch
    if _scratch is None:
        _scratch = tempfile.mkdtemp(prefix="verif-libcbor-")
        atexit.register(shutil.rmtree, _scratch, ignore_errors=True)
    return _scratch


def ensure_irfacts():
    src = os.path.join(VERIF, "tools", "irfacts.cc")
    if os.path.exists(IRFACTS) and os.path.getmtime(IRFACTS) >= os.path.getmtime(src):
        return
    os.makedirs(os.path.dirname(IRFACTS), exist_ok=True)
    cxxflags = subprocess.check_output(["llvm-config-14", "--cxxflags"], text=True).split()
    cmd = ["clang++"] + cxxflags + ["-fno-rtti", "-O1", src, "-o", IRFACTS,
                                    "/usr/lib/llvm-14/lib/libLLVM-14.so"]
    r = subprocess.run(cmd, capture_output=True, text=True)
    if r.returncode != 0:
        raise AnalysisBroken("cannot build irfacts: " + r.stderr[-2000:])


def parse_sources():
    """SOURCES list of src/CMakeLists.txt; cross-checked against the .c files on disk."""
    path = os.path.join(REPO, "src", "CMakeLists.txt")
    txt = open(path).read()
    m = re.search(r"set\(\s*SOURCES\s+([^)]*)\)", txt)
    if not m:
        raise AnalysisBroken("src/CMakeLists.txt: SOURCES list not found")
    listed = m.group(1).split()
    on_disk = []
    for root, _, files in os.walk(os.path.join(REPO, "src")):
        for f in files:
            if f.endswith(".c"):
                on_disk.append(os.path.relpath(os.path.join(root, f), os.path.join(REPO, "src")))
    missing = [s for s in listed if s not in on_disk]
    unlisted = [s for s in on_disk if s not in listed]
    if missing:
        raise AnalysisBroken("listed in SOURCES but missing on disk: %s" % missing)
    if unlisted:
        raise AnalysisBroken("src/*.c not in SOURCES (would be invisible to the analysis): %s" % unlisted)
    return sorted(listed)


def cmake_defaults():
    """Cache defaults that configure_file substitutes into configuration.h."""
    txt = open(os.path.join(REPO, "CMakeLists.txt")).read()
    vals = {}
    for name in ("CBOR_VERSION_MAJOR", "CBOR_VERSION_MINOR", "CBOR_VERSION_PATCH"):
        m = re.search(r'set\(\s*%s\s+"?([0-9]+)"?\s*\)' % name, txt)
        if not m:
            raise AnalysisBroken("CMakeLists.txt: %s not found" % name)
        vals[name] = m.group(1)
    for name in ("CBOR_BUFFER_GROWTH", "CBOR_MAX_STACK_SIZE"):
        m = re.search(r'set\(\s*%s\s+"?([0-9]+)"?\s+CACHE' % name, txt)
        if not m:
            raise AnalysisBroken("CMakeLists.txt: cache variable %s not found" % name)
        vals[name] = m.group(1)
    m = re.search(r'option\(\s*CBOR_PRETTY_PRINTER\s+"[^"]*"\s+(\w+)\s*\)', txt)
    if not m:
        raise AnalysisBroken("CMakeLists.txt: option CBOR_PRETTY_PRINTER not found")
    vals["CBOR_PRETTY_PRINTER"] = "1" if m.group(1).upper() in ("ON", "TRUE", "1") else "0"
    vals["CBOR_RESTRICT_SPECIFIER"] = "restrict"
    vals["CBOR_INLINE_SPECIFIER"] = ""
    return vals


def gen_headers(incdir, overrides=None):
    vals = cmake_defaults()
    if overrides:
        vals.update({k: str(v) for k, v in overrides.items()})
    tmpl = open(os.path.join(REPO, "src", "cbor", "configuration.h.in")).read()

    def sub(m):
        k = m.group(1)
        if k not in vals:
            raise AnalysisBroken("configuration.h.in uses unknown variable %s" % k)
        return vals[k]

    out = re.sub(r"\$\{(\w+)\}", sub, tmpl)
    out = re.sub(r"#cmakedefine01\s+(\w+)", lambda m: "#define %s %s" % (m.group(1), vals.get(m.group(1), "0")), out)
    os.makedirs(os.path.join(incdir, "cbor"), exist_ok=True)
    open(os.path.join(incdir, "cbor", "configuration.h"), "w").write(out)
    open(os.path.join(incdir, "cbor", "cbor_export.h"), "w").write(
        "#ifndef CBOR_EXPORT_H\n#define CBOR_EXPORT_H\n#define CBOR_EXPORT\n#define CBOR_NO_EXPORT\n"
        "#define CBOR_DEPRECATED __attribute__((__deprecated__))\n#endif\n")
    return vals


BASE_FLAGS = ["-std=c2x", "-DEIGHT_BYTE_SIZE_T", "-D_CBOR_HAS_BUILTIN_UNREACHABLE",
              "-D_CBOR_HAS_NODISCARD_ATTRIBUTE", "-O0", "-Xclang", "-disable-O0-optnone",
              "-fno-discard-value-names", "-fno-builtin", "-g", "-w"]
CONFIG_FLAGS = {
    "release": ["-DNDEBUG"],
    "debug": ["-DDEBUG=true", "-UNDEBUG"],
}


def _compile_unit(args):
    src, outbase, flags, incdirs, optlevel = args
    bc = outbase + ".bc"
    cmd = [CLANG] + flags + sum([["-I", d] for d in incdirs], []) + ["-c", "-emit-llvm", src, "-o", bc]
    r = subprocess.run(cmd, capture_output=True, text=True)
    if r.returncode != 0:
        return (src, None, "clang failed: " + r.stderr[-3000:])
    bc2 = outbase + ".m2r.bc"
    passes = "mem2reg" if optlevel == 0 else "default<O1>"
    r = subprocess.run([OPT, "-passes=" + passes, bc, "-o", bc2], capture_output=True, text=True)
    if r.returncode != 0:
        return (src, None, "opt failed: " + r.stderr[-3000:])
    js = outbase + ".json"
    with open(js, "w") as f:
        r = subprocess.run([IRFACTS, bc2], stdout=f, stderr=subprocess.PIPE, text=True)
    if r.returncode != 0:
        return (src, None, "irfacts failed: " + r.stderr[-3000:])
    os.unlink(bc)
    os.unlink(bc2)
    return (src, js, None)


_cache = {}


def facts(config="release", overrides=None, optlevel=0, extra_sources=None):
    """Return list of module-fact dicts for every unit (plus extra_sources, e.g. positive controls)."""
    key = (config, tuple(sorted((overrides or {}).items())), optlevel, tuple(extra_sources or ()))
    if key in _cache:
        return _cache[key]
    ensure_irfacts()
    units = parse_sources()
    tag = "%s-%s-O%d" % (config, "_".join("%s%s" % kv for kv in sorted((overrides or {}).items())) or "default", optlevel)
    work = os.path.join(scratch(), tag)
    inc = os.path.join(work, "inc")
    os.makedirs(inc, exist_ok=True)
    # a pseudo-option: plain `char` is unsigned (the ABI of ARM, AArch64, PowerPC and RISC-V Linux) - code that keeps a signed
    # quantity in a plain char is right on x86 only
    ov_ = dict(overrides or {})
    extra_flags = ["-funsigned-char"] if ov_.pop("CHAR_UNSIGNED", None) else []
    vals = gen_headers(inc, ov_)
    flags = BASE_FLAGS + CONFIG_FLAGS[config] + extra_flags
    incdirs = [os.path.join(REPO, "src"), inc]
    jobs = []
    for u in units:
        outbase = os.path.join(work, u.replace("/", "__"))
        jobs.append((os.path.join(REPO, "src", u), outbase, flags, incdirs, optlevel))
    for i, s in enumerate(extra_sources or ()):
        jobs.append((s, os.path.join(work, "extra%d__%s" % (i, os.path.basename(s))), flags, incdirs, optlevel))
    mods = []
    with concurrent.futures.ThreadPoolExecutor(max_workers=16) as ex:
        for src, js, err in ex.map(_compile_unit, jobs):
            if err:
                raise AnalysisBroken("%s: %s" % (src, err))
            m = json.load(open(js))
            m["unit"] = os.path.relpath(src, REPO) if src.startswith(REPO) else src
            m["is_extra"] = not src.startswith(os.path.join(REPO, "src"))
            mods.append(m)
            os.unlink(js)
    res = {"modules": mods, "config": config, "values": vals, "units": units, "optlevel": optlevel, "workdir": work}
    _cache[key] = res
    return res


if __name__ == "__main__":
    f = facts(sys.argv[1] if len(sys.argv) > 1 else "release")
    print(len(f["modules"]), "modules;", sum(len(m["functions"]) for m in f["modules"]), "functions")
