/* Positive controls for C17 / C18 (never linked, never executed). */
#include "cbor.h"

/* C17.inventory: hidden mutable state - function-static scratch */
size_t verif_ctl_static_cache(const cbor_item_t* item) {
  static size_t last;
  last = cbor_serialized_size(item);
  return last;
}

/* C17.inventory: file-scope mutable global */
int verif_ctl_counter;
void verif_ctl_bump(void) { verif_ctl_counter++; }

/* C18.readonly: a "getter" that writes through its const item */
size_t verif_ctl_const_write(const cbor_item_t* item) {
  ((cbor_item_t*)item)->refcount++;
  size_t r = item->refcount;
  ((cbor_item_t*)item)->refcount--;
  return r;
}

/* C18.readonly: transient write two calls deep */
size_t verif_ctl_const_write_deep(const cbor_item_t* item) {
  return cbor_refcount(cbor_move(cbor_incref((cbor_item_t*)item)));
}

/* *.declared-effects: a function promised to the compiler as `pure` that takes a reference */
__attribute__((__pure__)) cbor_item_t* verif_ctl_pure_get(const cbor_item_t* item) {
  return cbor_incref(((cbor_item_t**)item->data)[0]);
}

/* *.payload-reads: the last payload byte of a string that may be empty */
int verif_ctl_last_byte(const cbor_item_t* item) {
  const unsigned char* text = cbor_string_handle(item);
  return text[cbor_string_length(item) - 1];
}

/* C13.no-orphan: a fresh block installed over whatever the field held */
void verif_ctl_orphan(cbor_item_t* item) {
  unsigned char* fresh = _cbor_malloc(8);
  if (fresh != NULL) item->data = fresh;
}
