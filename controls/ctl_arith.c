/* Positive control for C20 (never linked, never executed). */
#include "cbor.h"

/* C20.audit: an unguarded size product handed to the allocator */
void* verif_ctl_unguarded_product(size_t n, size_t k) { return _cbor_malloc(n * k); }

/* *.signed-shift: a promoted byte shifted into the sign bit of int */
unsigned verif_ctl_signed_shift(const unsigned char* s) { return (unsigned)(s[0] << 24) | s[1]; }
