/* Positive control for C20 (never linked, never executed). */
#include "cbor.h"

/* C20.audit: an unguarded size product handed to the allocator */
void* verif_ctl_unguarded_product(size_t n, size_t k) { return _cbor_malloc(n * k); }
