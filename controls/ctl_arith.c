/* Positive control for C20 (never linked, never executed). */
#include "cbor.h"

/* C20.audit: an unguarded size product handed to the allocator */
void* verif_ctl_unguarded_product(size_t n, size_t k) { return _cbor_malloc(n * k); }

/* *.signed-shift: a promoted byte shifted into the sign bit of int */
unsigned verif_ctl_signed_shift(const unsigned char* s) { return (unsigned)(s[0] << 24) | s[1]; }

/* *.narrowing: a declared count kept in 32 bits */
unsigned verif_ctl_narrow_count;
void verif_ctl_narrow(size_t count) { verif_ctl_narrow_count = (unsigned)count; }

/* *.window-reads: the byte after the cursor read with only one byte known to remain */
int verif_ctl_window_read(const unsigned char* p, size_t n) {
  const unsigned char* end = p + n;
  int s = 0;
  while (p != end) {
    if (*p == 0xE0) s += p[1];
    p++;
  }
  return s;
}

/* *.window-writes: two bytes written after asking for one */
size_t verif_ctl_window_write(unsigned char* buffer, size_t buffer_size) {
  if (buffer_size >= 1) {
    buffer[0] = 1;
    buffer[1] = 2;
    return 2;
  }
  return 0;
}

/* *.signed-compare: two sizes compared as signed quantities */
int verif_ctl_signed_compare(size_t needed, size_t available) { return (long)needed > (long)available; }
