/* Positive controls for C13 (compiled with the library's flags on every run;
 * never linked, never executed).  Each function must be reported. */
#include <stdlib.h>
#include <string.h>
#include "cbor.h"

/* rule C13.ext: direct libc release of a library block */
void verif_ctl_direct_free(cbor_item_t* item) { free(item->data); }

/* rule C13.ext: allocation that bypasses the configured allocator */
char* verif_ctl_strdup(const char* s) { return strdup(s); }

/* rule C13.provenance: releasing an interior pointer (int payload lives in the item block) */
void verif_ctl_free_interior(cbor_item_t* item) {
  switch (item->type) {
    case CBOR_TYPE_UINT:
      _cbor_free(item->data);
      break;
    default:
      break;
  }
}

/* rule C13.setter: allocator pointer written outside cbor_set_allocs */
void verif_ctl_swap_malloc(_cbor_malloc_t m) { _cbor_malloc = m; }

/* rule C13.surface: an encoder-like function that allocates */
size_t verif_ctl_alloc_in_encoder(unsigned char* buffer, size_t n) {
  void* p = _cbor_malloc(n);
  if (p == NULL) return 0;
  _cbor_free(p);
  return cbor_encode_null(buffer, n);
}
